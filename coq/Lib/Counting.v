(* Counting lemma behind "the expected fraction of equal positions is the Jaccard index":
   among the n! rankings of a finite set U = A u B, the number of rankings in which the
   lowest-ranked element of A is the lowest-ranked element of B is |A n B| (n-1)!, i.e. a share
   |A n B| / |A u B| of all rankings.  A ranking is a list of the elements of U in increasing rank;
   the minimum of a subset under the ranking is the first element of the list that lies in it. *)
From Coq Require Import List Arith Bool Lia Permutation Factorial.
Import ListNotations.

Section Perms.
Context {A : Type}.

(* all ways to insert a into l *)
Fixpoint ins_everywhere (a : A) (l : list A) : list (list A) :=
  match l with
  | [] => [[a]]
  | x :: r => (a :: x :: r) :: map (cons x) (ins_everywhere a r)
  end.

Fixpoint perms (l : list A) : list (list A) :=
  match l with
  | [] => [[]]
  | a :: r => flat_map (ins_everywhere a) (perms r)
  end.

Lemma ins_everywhere_length a l : length (ins_everywhere a l) = S (length l).
Proof. induction l as [|x r IH]; cbn; [reflexivity|]. rewrite map_length, IH. reflexivity. Qed.

Lemma flat_map_length_const {B C} (f : B -> list C) l k : (forall b, In b l -> length (f b) = k) ->
  length (flat_map f l) = length l * k.
Proof.
  induction l as [|b l IH]; intros H; cbn; [reflexivity|].
  rewrite app_length, IH, (H b) by (intros; try apply H; cbn; auto). lia.
Qed.

Lemma ins_everywhere_perm a l p : In p (ins_everywhere a l) -> Permutation p (a :: l).
Proof.
  revert p. induction l as [|x r IH]; intros p H; cbn in H.
  - destruct H as [<-|[]]. apply Permutation_refl.
  - destruct H as [<-|H]; [apply Permutation_refl|].
    apply in_map_iff in H. destruct H as [q [<- Hq]].
    eapply Permutation_trans; [apply perm_skip, IH; exact Hq|apply perm_swap].
Qed.

Lemma perms_sound l p : In p (perms l) -> Permutation p l.
Proof.
  revert p. induction l as [|a r IH]; intros p H; cbn in H.
  - destruct H as [<-|[]]. constructor.
  - apply in_flat_map in H. destruct H as [q [Hq Hp]].
    eapply Permutation_trans; [apply ins_everywhere_perm; exact Hp|]. apply perm_skip, IH, Hq.
Qed.

Lemma perms_elem_length l p : In p (perms l) -> length p = length l.
Proof. intros H. apply Permutation_length, perms_sound, H. Qed.

Theorem perms_count l : length (perms l) = fact (length l).
Proof.
  induction l as [|a r IH]; [reflexivity|]. cbn [perms length fact].
  rewrite (flat_map_length_const _ _ (S (length r))).
  - rewrite IH. lia.
  - intros q Hq. rewrite ins_everywhere_length, (perms_elem_length _ _ Hq). reflexivity.
Qed.

Lemma ins_everywhere_complete a p1 p2 : In (p1 ++ a :: p2) (ins_everywhere a (p1 ++ p2)).
Proof.
  induction p1 as [|x p1 IH]; cbn.
  - destruct p2; cbn; auto.
  - right. apply in_map. exact IH.
Qed.

Theorem perms_complete l p : Permutation p l -> In p (perms l).
Proof.
  revert p. induction l as [|a r IH]; intros p H.
  - apply Permutation_sym, Permutation_nil in H. subst. cbn. auto.
  - assert (Ha : In a p) by (eapply Permutation_in; [apply Permutation_sym; exact H|left; reflexivity]).
    apply in_split in Ha. destruct Ha as [p1 [p2 ->]].
    cbn [perms]. apply in_flat_map. exists (p1 ++ p2). split.
    + apply IH. eapply Permutation_cons_inv. eapply Permutation_trans; [apply Permutation_middle|exact H].
    + apply ins_everywhere_complete.
Qed.

(* rankings whose lowest element satisfies S *)
Variable sel : A -> bool.
Definition head_in (p : list A) : bool := match p with x :: _ => sel x | [] => false end.
Definition count_head (ps : list (list A)) : nat := length (filter head_in ps).
Definition count_S (l : list A) : nat := length (filter sel l).

Lemma count_head_app ps qs : count_head (ps ++ qs) = count_head ps + count_head qs.
Proof. unfold count_head. rewrite filter_app, app_length. reflexivity. Qed.

(* inserting a into a non-empty q: one result starts with a, the others with the head of q *)
Lemma count_head_ins a q : q <> [] ->
  count_head (ins_everywhere a q) = (if sel a then 1 else 0) + length q * (if head_in q then 1 else 0).
Proof.
  destruct q as [|x r]; [congruence|]. intros _. cbn [ins_everywhere].
  unfold count_head. cbn [filter head_in].
  assert (Hm : forall t, filter head_in (map (cons x) t) = if sel x then map (cons x) t else []).
  { induction t as [|y t IH]; cbn [map filter head_in]; [destruct (sel x); reflexivity|].
    rewrite IH. destruct (sel x); reflexivity. }
  rewrite Hm. destruct (sel a), (sel x); cbn [length]; rewrite ?map_length, ?ins_everywhere_length; cbn [length]; lia.
Qed.

Lemma count_head_cons q ps : count_head (q :: ps) = (if head_in q then 1 else 0) + count_head ps.
Proof. unfold count_head. cbn [filter]. destruct (head_in q); reflexivity. Qed.

Lemma count_head_flat a ps n : (forall q, In q ps -> length q = S n) ->
  count_head (flat_map (ins_everywhere a) ps) = (if sel a then length ps else 0) + S n * count_head ps.
Proof.
  induction ps as [|q ps IH]; intros H; cbn [flat_map].
  - unfold count_head. cbn. destruct (sel a); lia.
  - rewrite count_head_app, IH by (intros; apply H; right; assumption).
    assert (Hq := H q (or_introl eq_refl)).
    rewrite count_head_ins by (destruct q; discriminate). rewrite Hq, count_head_cons.
    destruct (head_in q), (sel a); cbn [length]; lia.
Qed.

(* the share of rankings whose lowest element lies in S is |S n l| / |l| *)
Theorem lowest_in_S_count l : count_head (perms l) * length l = count_S l * fact (length l).
Proof.
  induction l as [|a r IH]; [reflexivity|].
  destruct r as [|b r'] eqn:Er.
  - cbn. unfold count_head, count_S. cbn. destruct (sel a); reflexivity.
  - rewrite <- Er in *. cbn [perms].
    assert (Hlen : length r = S (length r')) by (rewrite Er; reflexivity).
    rewrite (count_head_flat a (perms r) (length r')) by (intros q Hq; rewrite (perms_elem_length _ _ Hq); exact Hlen).
    rewrite perms_count. unfold count_S in *. cbn [filter length fact].
    rewrite <- Hlen.
    destruct (sel a); cbn [length]; nia.
Qed.
End Perms.

(* ---- two subsets of the ranked set: their minima coincide iff the overall minimum is common ---- *)
Section Collide.
Context {A : Type}.
Variable eqb : A -> A -> bool.
Hypothesis eqb_spec : forall x y, eqb x y = true <-> x = y.
Variables inA inB : A -> bool.

Definition opt_eqb (x y : option A) : bool :=
  match x, y with Some a, Some b => eqb a b | None, None => true | _, _ => false end.

(* the sketch position of A holds the lowest-ranked element of A, that of B the lowest of B *)
Definition collide (p : list A) : bool := opt_eqb (find inA p) (find inB p).

Lemma find_not_head (P : A -> bool) x r y : NoDup (x :: r) -> find P r = Some y -> y <> x.
Proof.
  intros Hnd Hf Hxy. apply find_some in Hf. destruct Hf as [Hin _]. inversion Hnd; subst. contradiction.
Qed.

Lemma collide_iff_head p : p <> [] -> NoDup p -> (forall x, In x p -> inA x || inB x = true) ->
  collide p = head_in (fun x => inA x && inB x) p.
Proof.
  destruct p as [|x r]; [congruence|]. intros _ Hnd Hall. unfold collide. cbn [find head_in].
  assert (Hx := Hall x (or_introl eq_refl)).
  destruct (inA x) eqn:Ea, (inB x) eqn:Eb; cbn [andb orb] in *; try discriminate.
  - cbn. apply eqb_spec. reflexivity.
  - destruct (find inB r) as [y|] eqn:Ef; cbn; [|reflexivity].
    assert (Hne := find_not_head inB x r y Hnd Ef).
    destruct (eqb x y) eqn:E; [apply eqb_spec in E; congruence|reflexivity].
  - destruct (find inA r) as [y|] eqn:Ef; cbn; [|reflexivity].
    assert (Hne := find_not_head inA x r y Hnd Ef).
    destruct (eqb y x) eqn:E; [apply eqb_spec in E; congruence|reflexivity].
Qed.

(* among all rankings of U = A u B (no repeated element), the number in which the two minima
   coincide, times |U|, is |A n B| |U|!  -  the collision probability under a uniform ranking is J *)
Theorem collision_share (U : list A) : U <> [] -> NoDup U -> (forall x, In x U -> inA x || inB x = true) ->
  length (filter collide (perms U)) * length U
  = length (filter (fun x => inA x && inB x) U) * fact (length U).
Proof.
  intros Hne Hnd Hall.
  change (length (filter (fun x => inA x && inB x) U)) with (count_S (fun x => inA x && inB x) U).
  rewrite <- (lowest_in_S_count (fun x => inA x && inB x) U). unfold count_head. f_equal. f_equal.
  apply filter_ext_in. intros p Hp. assert (HP := perms_sound _ _ Hp).
  apply collide_iff_head.
  - intros ->. apply Permutation_nil in HP. congruence.
  - eapply Permutation_NoDup; [apply Permutation_sym; exact HP|exact Hnd].
  - intros x Hx. apply Hall. eapply Permutation_in; [exact HP|exact Hx].
Qed.
End Collide.

(* premises are satisfiable: U = {1,2,3,4}, A = {1,2,3}, B = {2,3,4}: 12 of the 24 rankings collide, J = 2/4 *)
Example collision_share_example :
  length (filter (collide Nat.eqb (fun x => x <=? 3) (fun x => 2 <=? x)) (perms [1; 2; 3; 4])) = 12.
Proof. vm_compute. reflexivity. Qed.
