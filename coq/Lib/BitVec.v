(* Fixed-width unsigned machine integers as Z with explicit wrap-around.
   These are the primitives the invhash translator targets. No proofs about
   the generated code live here, only facts about the primitives. *)
From Coq Require Import ZArith Lia Bool.
Open Scope Z_scope.

Definition wrap (w x : Z) : Z := x mod 2 ^ w.
Definition wadd (w a b : Z) : Z := (a + b) mod 2 ^ w.
Definition wsub (w a b : Z) : Z := (a - b) mod 2 ^ w.
Definition wmul (w a b : Z) : Z := (a * b) mod 2 ^ w.
Definition wnot (w a : Z) : Z := 2 ^ w - 1 - a.
Definition wshl (w a k : Z) : Z := (a * 2 ^ k) mod 2 ^ w.
Definition wshr (a k : Z) : Z := Z.shiftr a k.
Definition wxor (a b : Z) : Z := Z.lxor a b.

Definition inrange (w x : Z) : Prop := 0 <= x < 2 ^ w.

Lemma pow2_pos w : 0 <= w -> 0 < 2 ^ w.
Proof. intros; apply Z.pow_pos_nonneg; lia. Qed.

Lemma wadd_range w a b : 0 <= w -> inrange w (wadd w a b).
Proof. intros Hw; unfold inrange, wadd; apply Z.mod_pos_bound, pow2_pos, Hw. Qed.
Lemma wsub_range w a b : 0 <= w -> inrange w (wsub w a b).
Proof. intros Hw; unfold inrange, wsub; apply Z.mod_pos_bound, pow2_pos, Hw. Qed.
Lemma wmul_range w a b : 0 <= w -> inrange w (wmul w a b).
Proof. intros Hw; unfold inrange, wmul; apply Z.mod_pos_bound, pow2_pos, Hw. Qed.
Lemma wshl_range w a k : 0 <= w -> inrange w (wshl w a k).
Proof. intros Hw; unfold inrange, wshl; apply Z.mod_pos_bound, pow2_pos, Hw. Qed.
Lemma wnot_range w a : inrange w a -> inrange w (wnot w a).
Proof. unfold inrange, wnot; lia. Qed.

Lemma shiftr_range w a k : 0 <= w -> 0 <= k -> inrange w a -> inrange w (wshr a k).
Proof.
  intros Hw Hk [H0 H1]; unfold inrange, wshr. rewrite Z.shiftr_div_pow2 by lia.
  assert (0 < 2 ^ k) by (apply pow2_pos; lia). split.
  - apply Z.div_pos; lia.
  - apply Z.le_lt_trans with a; [|lia]. apply Z.div_le_upper_bound; nia.
Qed.

Lemma inrange_testbit w x : 0 <= w -> inrange w x ->
  forall n, w <= n -> Z.testbit x n = false.
Proof.
  intros Hw [H0 H1] n Hn. destruct (Z.eq_dec x 0) as [->|Hx]; [apply Z.bits_0|].
  apply Z.bits_above_log2; [lia|]. apply Z.lt_le_trans with w; [|lia].
  apply Z.log2_lt_pow2; lia.
Qed.

Lemma testbit_inrange w x : 0 <= w -> 0 <= x ->
  (forall n, w <= n -> Z.testbit x n = false) -> inrange w x.
Proof.
  intros Hw H0 Hb. split; [exact H0|].
  destruct (Z.eq_dec x 0) as [->|Hx]; [apply pow2_pos; lia|].
  destruct (Z_lt_le_dec x (2 ^ w)) as [|Hge]; [assumption|exfalso].
  assert (Hl : w <= Z.log2 x) by (apply Z.log2_le_pow2; lia).
  specialize (Hb (Z.log2 x) Hl). rewrite Z.bit_log2 in Hb by lia. discriminate.
Qed.

Lemma wxor_range w a b : 0 <= w -> inrange w a -> inrange w b -> inrange w (wxor a b).
Proof.
  intros Hw Ha Hb. apply testbit_inrange; [exact Hw| |].
  - unfold wxor. apply Z.lxor_nonneg. destruct Ha, Hb; lia.
  - intros n Hn. unfold wxor. rewrite Z.lxor_spec.
    rewrite (inrange_testbit w a), (inrange_testbit w b) by assumption. reflexivity.
Qed.

(* ---------- xorshift and its inverses ---------- *)

(* y = x xor (x >> s).  The code inverts it either by the iteration
   t_0 = y, t_{j+1} = y xor (t_j >> s), or by an explicit xor of shifts. *)
Definition xs (s x : Z) : Z := wxor x (wshr x s).

Fixpoint xs_iter (s y : Z) (j : nat) : Z :=
  match j with O => y | S j' => wxor y (wshr (xs_iter s y j') s) end.

Lemma lxor_cancel_mid a b c : Z.lxor (Z.lxor a b) (Z.lxor b c) = Z.lxor a c.
Proof.
  rewrite Z.lxor_assoc, <- (Z.lxor_assoc b b c), Z.lxor_nilpotent, Z.lxor_0_l. reflexivity.
Qed.

Lemma xs_iter_spec s x j : 0 <= s ->
  xs_iter s (xs s x) j = wxor x (wshr x (Z.of_nat (S j) * s)).
Proof.
  intros Hs. induction j as [|j IH].
  - cbn [xs_iter]. unfold xs. f_equal. f_equal. lia.
  - cbn [xs_iter]. rewrite IH. unfold xs, wxor, wshr.
    rewrite Z.shiftr_lxor, Z.shiftr_shiftr by lia.
    rewrite lxor_cancel_mid. f_equal. f_equal. lia.
Qed.

Lemma shiftr_big w x k : 0 <= w -> inrange w x -> w <= k -> wshr x k = 0.
Proof.
  intros Hw [H0 H1] Hk. unfold wshr. rewrite Z.shiftr_div_pow2 by lia.
  apply Z.div_small. split; [lia|]. apply Z.lt_le_trans with (2 ^ w); [lia|].
  apply Z.pow_le_mono_r; lia.
Qed.

Lemma xs_iter_inv w s x j : 0 <= w -> 0 <= s -> inrange w x -> w <= Z.of_nat (S j) * s ->
  xs_iter s (xs s x) j = x.
Proof.
  intros Hw Hs Hx Hj. rewrite xs_iter_spec by assumption.
  rewrite (shiftr_big w) by assumption. unfold wxor. apply Z.lxor_0_r.
Qed.

(* the other direction: applying the xorshift to the iterated value *)
Lemma xs_of_iter w s y j : 0 <= w -> 0 < s -> inrange w y -> w <= Z.of_nat (S j) * s ->
  xs s (xs_iter s y j) = y.
Proof.
  intros Hw Hs Hy Hj.
  (* closed form: bit n of iter j = xor_{i=0..j} y_{n+i s} *)
  assert (Hclosed : forall j n, 0 <= n ->
     xorb (Z.testbit (xs_iter s y j) n) (Z.testbit (xs_iter s y j) (n + s)) =
     xorb (Z.testbit y n) (Z.testbit y (n + Z.of_nat (S j) * s))).
  { induction j0 as [|j0 IH]; intros n Hn.
    - cbn [xs_iter]. f_equal. f_equal. lia.
    - cbn [xs_iter]. unfold wxor, wshr.
      rewrite !Z.lxor_spec, !Z.shiftr_spec by lia.
      specialize (IH (n + s) ltac:(lia)).
      replace (n + Z.of_nat (S (S j0)) * s) with (n + s + Z.of_nat (S j0) * s) by lia.
      revert IH.
      generalize (Z.testbit y (n + s + Z.of_nat (S j0) * s)).
      generalize (Z.testbit (xs_iter s y j0) (n + s + s)).
      generalize (Z.testbit (xs_iter s y j0) (n + s)).
      generalize (Z.testbit y (n + s)). generalize (Z.testbit y n).
      intros [] [] [] [] []; cbn; congruence. }
  apply Z.bits_inj'. intros n Hn. unfold xs, wxor, wshr.
  rewrite Z.lxor_spec, Z.shiftr_spec by lia. rewrite Hclosed by lia.
  rewrite (inrange_testbit w y Hw Hy (n + Z.of_nat (S j) * s)) by lia.
  apply xorb_false_r.
Qed.

(* ---------- modular arithmetic helpers ---------- *)

Lemma mod_eq_of_diff (M a b q : Z) : a = b + q * M -> a mod M = b mod M.
Proof. intros ->. apply Z_mod_plus_full. Qed.

Lemma mod_small_id w x : inrange w x -> x mod 2 ^ w = x.
Proof. intros H; apply Z.mod_small; exact H. Qed.

(* ---------- congruence modulo M as a setoid, for stripping nested mods ---------- *)
From Coq Require Import Zdiv Setoid Morphisms.

Inductive cg (M a b : Z) : Prop := cg_i : a mod M = b mod M -> cg M a b.
Lemma cg_elim M a b : cg M a b -> a mod M = b mod M.
Proof. intros [H]; exact H. Qed.
Global Instance cg_equiv M : Equivalence (cg M).
Proof.
  split; [intros x|intros x y [H]|intros x y z [H] [H']]; constructor; congruence.
Qed.
Global Instance cg_add M : Proper (cg M ==> cg M ==> cg M) Z.add.
Proof. intros a b [H] c d [H']. constructor. rewrite (Zplus_mod a), (Zplus_mod b), H, H'. reflexivity. Qed.
Global Instance cg_sub M : Proper (cg M ==> cg M ==> cg M) Z.sub.
Proof. intros a b [H] c d [H']. constructor. rewrite (Zminus_mod a), (Zminus_mod b), H, H'. reflexivity. Qed.
Global Instance cg_mul M : Proper (cg M ==> cg M ==> cg M) Z.mul.
Proof. intros a b [H] c d [H']. constructor. rewrite (Zmult_mod a), (Zmult_mod b), H, H'. reflexivity. Qed.
Lemma cg_mod M a : cg M (a mod M) a.
Proof. constructor. apply Zmod_mod. Qed.
Lemma cg_diff M a b q : a = b + q * M -> cg M a b.
Proof. intros ->. constructor. apply Z_mod_plus_full. Qed.
Lemma cg_eq_inrange M a b : 0 <= a < M -> 0 <= b < M -> cg M a b -> a = b.
Proof. intros Ha Hb [H]. rewrite (Z.mod_small a), (Z.mod_small b) in H; assumption. Qed.

Lemma cg_mod_c M a a' : cg M a a' -> cg M (a mod M) a'.
Proof. intros H. rewrite <- H. apply cg_mod. Qed.
Lemma cg_add_c M a a' b b' : cg M a a' -> cg M b b' -> cg M (a + b) (a' + b').
Proof. intros H H'. rewrite H, H'. reflexivity. Qed.
Lemma cg_sub_c M a a' b b' : cg M a a' -> cg M b b' -> cg M (a - b) (a' - b').
Proof. intros H H'. rewrite H, H'. reflexivity. Qed.
Lemma cg_mul_c M a a' b b' : cg M a a' -> cg M b b' -> cg M (a * b) (a' * b').
Proof. intros H H'. rewrite H, H'. reflexivity. Qed.
Lemma cg_trans M a a' b : cg M a a' -> cg M a' b -> cg M a b.
Proof. intros H H'. rewrite H. exact H'. Qed.

(* solves [cg M E ?E'] instantiating ?E' with E stripped of every "mod M" *)
Ltac cg_strip :=
  lazymatch goal with
  | |- cg _ (Z.modulo _ _) _ => apply cg_mod_c; cg_strip
  | |- cg _ (Z.add _ _) _ => apply cg_add_c; cg_strip
  | |- cg _ (Z.sub _ _) _ => apply cg_sub_c; cg_strip
  | |- cg _ (Z.mul _ _) _ => apply cg_mul_c; cg_strip
  | |- _ => reflexivity
  end.

Ltac range :=
  repeat first [ assumption | apply wadd_range | apply wsub_range | apply wmul_range
               | apply wshl_range | apply wnot_range | apply wxor_range
               | apply shiftr_range | lia ].

(* Goal: E = x where E is built from wadd/wsub/wmul/wshl/wnot at width w applied
   to x and literals (so E is affine in x modulo 2^w), and x is in range. *)
Ltac solve_affine w x :=
  apply (cg_eq_inrange (2 ^ w));
  [ change (inrange w) with (fun z => 0 <= z < 2 ^ w); cbv beta;
    match goal with |- 0 <= ?e < _ => change (inrange w e) end; range
  | match goal with H : inrange w x |- _ => exact H end
  | unfold wadd, wsub, wmul, wshl, wnot; (eapply cg_trans; [cg_strip|]);
    match goal with |- cg ?M ?E x =>
      let f := eval pattern x in E in
      match f with ?F _ =>
        let e0 := eval vm_compute in (F 0) in
        let e1 := eval vm_compute in (F 1) in
        let k1 := eval vm_compute in ((e1 - e0 - 1) / M) in
        let k0 := eval vm_compute in (e0 / M) in
        apply cg_diff with (q := k1 * x + k0); ring
      end
    end ].

(* the explicit form  y ^ (y>>s) ^ (y>>2s) ^ ... ^ (y>>js)  of the xorshift inverse *)
Fixpoint xs_flat (s y : Z) (j : nat) : Z :=
  match j with O => y | S j' => wxor (xs_flat s y j') (wshr y (Z.of_nat j * s)) end.

Lemma xs_flat_shift s y j : 0 <= s ->
  wshr (xs_flat s y j) s = wxor (wxor (xs_flat s y j) y) (wshr y (Z.of_nat (S j) * s)).
Proof.
  intros Hs. induction j as [|j IH].
  - cbn [xs_flat]. unfold wxor. rewrite Z.lxor_nilpotent, Z.lxor_0_l. f_equal. lia.
  - cbn [xs_flat]. unfold wxor, wshr in *. rewrite Z.shiftr_lxor, IH, Z.shiftr_shiftr by lia.
    replace (Z.of_nat (S j) * s + s) with (Z.of_nat (S (S j)) * s) by lia.
    apply Z.bits_inj'. intros n Hn. rewrite !Z.lxor_spec.
    generalize (Z.testbit (Z.shiftr y (Z.of_nat (S (S j)) * s)) n).
    generalize (Z.testbit (Z.shiftr y (Z.of_nat (S j) * s)) n).
    generalize (Z.testbit y n). generalize (Z.testbit (xs_flat s y j) n).
    intros [] [] [] []; reflexivity.
Qed.

Lemma xs_flat_iter s y j : 0 <= s -> xs_flat s y j = xs_iter s y j.
Proof.
  intros Hs. induction j as [|j IH]; [reflexivity|].
  cbn [xs_iter]. rewrite <- IH, xs_flat_shift by lia. cbn [xs_flat].
  unfold wxor. apply Z.bits_inj'. intros n Hn. rewrite !Z.lxor_spec.
  generalize (Z.testbit (wshr y (Z.of_nat (S j) * s)) n).
  generalize (Z.testbit y n). generalize (Z.testbit (xs_flat s y j) n).
  intros [] [] []; reflexivity.
Qed.
