(* Decoding of correspondence cases sent as a flat list of integers (one case per line of
   the extracted runner's input).  Length-prefixed lists, fixed-arity tuples. *)
From Coq Require Import List ZArith.
Import ListNotations.
Open Scope Z_scope.

Definition rd (A : Type) := list Z -> option (A * list Z).

Definition rd_z : rd Z := fun ws => match ws with x :: r => Some (x, r) | [] => None end.
Definition rd_nat : rd nat := fun ws => match ws with x :: r => Some (Z.to_nat x, r) | [] => None end.

Definition rd_bind {A B} (a : rd A) (f : A -> rd B) : rd B :=
  fun ws => match a ws with Some (x, r) => f x r | None => None end.
Definition rd_ret {A} (x : A) : rd A := fun ws => Some (x, ws).

Fixpoint rd_n {A} (n : nat) (f : rd A) : rd (list A) :=
  match n with
  | O => rd_ret []
  | S n' => rd_bind f (fun x => rd_bind (rd_n n' f) (fun xs => rd_ret (x :: xs)))
  end.

(* length-prefixed list *)
Definition rd_list {A} (f : rd A) : rd (list A) := rd_bind rd_nat (fun n => rd_n n f).

Definition rd_pair {A B} (a : rd A) (b : rd B) : rd (A * B) :=
  rd_bind a (fun x => rd_bind b (fun y => rd_ret (x, y))).

Notation "x <- a ;; b" := (rd_bind a (fun x => b)) (at level 61, a at next level, right associativity).
