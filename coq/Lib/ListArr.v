(* Arrays as lists with explicit bounds; shared outcome type of the models. *)
From Coq Require Import List Arith ZArith Lia.
Import ListNotations.

Inductive outcome (A : Type) : Type :=
| Ok (a : A)
| AssertFail (n : nat)      (* an assert!/unwrap/panic of the code, numbered per model *)
| Oob                       (* index out of range *)
| Underflow                 (* unsigned subtraction below zero *)
| OutOfFuel.
Arguments Ok {A} a.
Arguments AssertFail {A} n.
Arguments Oob {A}.
Arguments Underflow {A}.
Arguments OutOfFuel {A}.

Definition bind {A B} (o : outcome A) (f : A -> outcome B) : outcome B :=
  match o with
  | Ok a => f a
  | AssertFail n => AssertFail n
  | Oob => Oob
  | Underflow => Underflow
  | OutOfFuel => OutOfFuel
  end.

Definition is_ok {A} (o : outcome A) : bool := match o with Ok _ => true | _ => false end.

Definition nthz (l : list Z) (i : nat) : Z := nth i l 0%Z.

Section Arr.
Context {A : Type}.

Fixpoint upd (l : list A) (i : nat) (v : A) : list A :=
  match l, i with
  | [], _ => []
  | _ :: r, O => v :: r
  | x :: r, S i' => x :: upd r i' v
  end.

Lemma upd_length l i v : length (upd l i v) = length l.
Proof. revert i; induction l as [|x r IH]; intros [|i]; simpl; auto. Qed.

Lemma nth_upd_eq l i v d : i < length l -> nth i (upd l i v) d = v.
Proof.
  revert i; induction l as [|x r IH]; intros [|i] H; simpl in *; try lia; auto.
  apply IH; lia.
Qed.

Lemma nth_upd_neq l i j v d : i <> j -> nth j (upd l i v) d = nth j l d.
Proof.
  revert i j; induction l as [|x r IH]; intros [|i] [|j] H; simpl; auto; try lia.
Qed.

Lemma upd_same_length_nil i v : upd (@nil A) i v = [].
Proof. destruct i; reflexivity. Qed.
Lemma upd_same l i d : upd l i (nth i l d) = l.
Proof. revert i; induction l as [|x r IH]; intros [|i]; simpl; auto. f_equal. apply IH. Qed.

Lemma nth_repeat_lt (x d : A) n i : i < n -> nth i (repeat x n) d = x.
Proof. revert i; induction n as [|n IH]; intros [|i] H; simpl; try lia; auto. apply IH; lia. Qed.
End Arr.

Lemma map_upd {A B} (f : A -> B) l i v : map f (upd l i v) = upd (map f l) i (f v).
Proof. revert i; induction l as [|x r IH]; intros [|i]; simpl; auto. f_equal. apply IH. Qed.
