(* helpers of the correspondence check: compare inside Coq, print only what differs *)
From Coq Require Import List ZArith Bool.
Import ListNotations.
Open Scope Z_scope.

Fixpoint zlist_eqb (a b : list Z) : bool :=
  match a, b with
  | [], [] => true
  | x :: a', y :: b' => (x =? y) && zlist_eqb a' b'
  | _, _ => false
  end.

Fixpoint bad_idx {A} (chk : A -> bool) (i : Z) (cs : list A) : list Z :=
  match cs with
  | [] => []
  | c :: r => if chk c then bad_idx chk (i + 1) r else i :: bad_idx chk (i + 1) r
  end.
